HOOK_COMMITS = ["5f79298", "dc70730", "875fe64", "1ce7fc0", "b8213b5", "b67406a", "42bb5d5", "0cfcb7b", "8597ebf", "021e122", "6334fa2", "441f405"]
ENGINES = [
    {"name": "mc-core::enumerate", "path": "harness/mc-core/src/enumerate.rs", "serves_properties": ["C03", "C04", "C11", "C12", "C13", "C15", "C16", "C17", "C20"],
     "kind_free_text": "exhaustive bounded input enumeration (odometers, products, subsets, byte mutations) against independent references"},
    {"name": "mc-core::bfs", "path": "harness/mc-core/src/bfs.rs", "serves_properties": ["C01", "C02", "C05", "C06", "C07", "C08", "C10", "C18", "C19"],
     "kind_free_text": "explicit-state BFS over operation histories; the transition function is the real method (clone mode / replay mode)"},
    {"name": "mc-core::sched", "path": "harness/mc-core/src/sched.rs", "serves_properties": ["C07", "C09", "C14", "C18"],
     "kind_free_text": "stateless iteratively deviation-bounded DFS over choice sequences (schedules, fault placements)"},
    {"name": "controlled executor", "path": "harness/chk-node/src/exec.rs", "serves_properties": ["C01", "C02", "C03", "C04", "C05", "C07", "C09", "C10", "C14", "C15"],
     "kind_free_text": "harness-owned polling of every future the code under test spawns (verif-hooks spawn shim) and of harness-started calls, one poll per step, with flag wakers"},
    {"name": "vcheck-fs", "path": "harness/vcheck-fs/src/main.rs", "serves_properties": ["C18"],
     "kind_free_text": "link-time libc interposition: every file-system call of real threads is a scheduling point of a cooperative scheduler explored by mc-core::sched"},
]
CHECKS = [{'id': 'C16',
  'engine': 'mc-core::enumerate',
  'level': 'exploration',
  'technique': 'exhaustive bounded input enumeration vs independent decimal reference',
  'text': 'Every string up to length 5/6 over a 12-character boundary alphabet, a structured family of long decimal strings up to and past the 256-bit range, '
          'fractions of every length 1..600, one non-ASCII character (2-4 bytes wide, non-ASCII digits) at every position of whole parts <= 30 and fractions '
          '<= 40 digits, ~1000 boundary amounts and all ordered pairs of a boundary set are run through the real AttoTokens parser/printer/arithmetic and '
          'compared with an independent digit-vector reference; complete within those bounds, silent outside them.',
  'note': 'Trusted: the reference in chk-pure/src/refnum.rs; the 256-bit space is covered only through the boundary sets.'},
 {'id': 'C17',
  'engine': 'mc-core::enumerate',
  'level': 'exploration',
  'technique': 'exhaustive bounded input enumeration under catch_unwind with overflow checks on',
  'text': 'Each listed parser is called on a completely enumerated boundary family (all lengths, all truncations and single-token/byte mutations of valid '
          'inputs, all short strings over marker alphabets, multi-byte characters at every byte offset of hex strings of the valid length and — for every text '
          'parser — one 2-, 3- or 4-byte character at every byte offset up to 120/200/600 followed by 0, 1 or 40 fillers, record bodies under record keys of '
          "every length 0..40 / 64 / 255 / 1000, all 65536 ports), with a tracing subscriber installed so that the arguments of the code's log lines are "
          'evaluated as they are on a running node; a panic or arithmetic overflow in the real code is a violation, parse(format(x))==x is checked where a '
          'formatter exists, and an accepted amount string must print back as the number that was written (silent wrap-around). Complete within the families, '
          "silent outside them. Record-store layer (subprocess in vcheck-node): a node's record directory holding one planted file — 35 file names (hex of "
          'every length 1..=18, 32, 63..66, 130 digits, upper case, non-hex, non-ASCII, nested) x 8 contents — opened by the real store (encrypted records), '
          'read, written next to, opened again. The contacts endpoint: the harness is a loopback web server answering the real ContactsFetcher::fetch_addrs '
          'with every sequence of <= 3(4) lines over 9 line shapes (x ignore_peer_id), the seed cache as JSON under every structural mutation, 10 foreign '
          'bodies and a multi-byte character at every offset — no panic, and exactly the usable lines come back.',
  'note': 'Trusted: catch_unwind + overflow-checks=on surface every crash; inputs outside the enumerated families (long random text, deep JSON nesting) are '
          'not covered.'},
 {'id': 'C12',
  'engine': 'mc-core::enumerate',
  'level': 'exploration',
  'technique': 'exhaustive bounded input enumeration: value pools x codecs, pinned tag table, golden bytes, hostile-byte sweep of every decoder',
  'text': 'Every value of per-kind pools and every request/response variant is encoded with the codecs the code uses (rmp for records, the libp2p cbor codec '
          'for messages), decoded and compared; prefixes are compared with a tag table pinned in the harness and whole encodings with committed golden bytes; '
          'every sequence of <=3/4 encode calls over 5 encodable and 4 unencodable values (each on a thread of its own) must return what each value returns '
          "when encoded alone; all byte strings <=2, all marker-byte sequences <=3/4, well-formed MessagePack bodies of 9 other shapes behind every kind's "
          'header, every kept encoding behind 10 other MessagePack spellings of its header, and every truncation / single-byte substitution of the encodings '
          'go to all 11 decoders; whatever a record decoder returns must be the decoding of the bytes behind the fixed 2-byte prefix (and the decoded messages '
          'are Debug-formatted as the driver does when logging). Complete within pools and bounds.',
  'note': 'Trusted: pinned table TAGS in chk-pure/src/c12.rs and golden/C12.json (generated once from the pinned tree); value pools are finite.'},
 {'id': 'C13',
  'engine': 'mc-core::enumerate',
  'level': 'exploration',
  'technique': 'exhaustive enumeration of field-mutation subsets x signature provenance x claimed identity against a construction-aware oracle',
  'text': 'All subsets of 10 field mutations (<=3 fields quick, all 1024 thorough) x 4 key variants x 7 signature provenances x 2 claimed identities are '
          'verified with the real PaymentQuote code; all proof compositions of <=3/4 entries over 5 entry kinds for 3 nodes; expiry at 10 ages; a 3^4 grid x 3 '
          "timestamp placements (incl. quotes dated ahead of the clock) for the history rule; and, at the place where a peer's quotes actually meet, every "
          'delivery order of every selection of <=3/4 quotes with distinct ages (100 s to 2 h / 25 h old, on both sides of the one-hour validity window) from '
          "a 24/36-quote pool through a real SwarmDriver's QuoteVerification handling (a fresh peer per sequence, its recorded issues read after every "
          'delivery). The oracle knows how each case was built, so it is independent of the verification code. Node layer (same subprocess): batches through '
          "Node::handle_network_event(QuoteVerification) with the peer's quote dated -8..+8 s around the node's own in each of two batches, the later one "
          "reporting less uptime / fewer payments / more of both; quotes outside the node's 10 s window must not lead to a flag.",
  'note': 'Trusted: libp2p ed25519 signing used to build cases; sub-second timestamp changes are not judged (signature covers whole seconds); the 3600 s edge '
          'is bracketed at +-10 s.'},
 {'id': 'C06',
  'engine': 'mc-core::bfs',
  'level': 'model_checking',
  'technique': 'explicit-state BFS over real SignedRegister replicas (clone mode) + exhaustive merge algebra over all sub-registers',
  'text': 'The transition function is the real add_op/merge/verified_merge on real replicas; every state reachable within depth 3/4 from 2/3 empty replicas '
          'under an 11-op pool (authorised, stranger, forged, a re-signed copy of an accepted op, an accepted op moved to other children with its signature '
          'kept, oversized, foreign-address) and from replicas pre-filled to 1022..1024 entries is checked against admission (also for hand-built registers '
          'that carry an inadmissible op and are offered through verify / verified_merge), refusal of three different base registers (another meta; the same '
          'address with other owner-signed permissions, empty and carrying an op valid only under those) by merge and verified_merge, '
          'validity-of-reachable-states and convergence invariants; every entry size 960..1026 x 0..2 parents and a small entry with 0..40 parents go through '
          'add_op and the resulting state through verify / verified_merge of another replica (one size rule on every path); merge laws are checked on all '
          'pairs/triples of the 32 sub-registers and delivery-order independence on all permutations with duplication.',
  'note': 'Trusted: fixed BLS keys and op pool; state key = set of pool ops per replica (exact: a replica of a fixture is determined by it); depth bound, 2/3 '
          'replicas.'},
 {'id': 'C01',
  'engine': 'mc-core::bfs',
  'level': 'model_checking',
  'technique': 'explicit-state BFS (replay mode) over put/remove histories x all background-task completion orders on the real NodeRecordStore, plus '
               'differential replay through the real SwarmDriver',
  'text': 'The real store (encrypted records, real files) is driven through every history of <=3/4 API operations over 3 keys of 3 record kinds from empty and '
          "pre-filled states; the scheduler's choices (which key's pending write/delete/notification runs next) are search actions, so all completion orders "
          'of tasks of different keys are covered and every history runs to quiescence; the frontier is exhausted. Safety is judged in every state, '
          'read-back/listing/removal in every quiescent state; an eviction inside put_verified counts as a removal only when the put starts a write of a '
          'record new to the store. The three-line mirror of cmd.rs in the rig is bound to the code by replaying all 1414 depth-3 histories through a real '
          'SwarmDriver and comparing observations step by step, and by a flow differential: every sequence of <=3 API operations, each settled, on rig and '
          'real driver side by side, with the settled-state clauses judged on the driver. Removal through the range clean-up is judged on stores of 1638 / '
          "1650 settled records (the clean-up's own threshold) whose newest — still cached — records lie beyond the range: every key for listed / readable / "
          'file, and removed keys put again with the same bytes, settled and after a cache roll-over.',
  'note': 'Trusted: the spawn shim hands every spawned future to the harness (feature verif-hooks); tasks of one key keep their order (scope of the '
          'statement); 3 keys x 2 values.'},
 {'id': 'C02',
  'engine': 'mc-core::bfs',
  'level': 'fault_enumeration',
  'technique': 'exhaustive crash-point enumeration: every reachable store state x {stop between tasks, every byte prefix of every in-flight file write}, real '
               'recovery twice',
  'text': 'In every state reachable by <=3/4 put/remove operations over 2 keys x 2 values (different lengths, one of them the largest the store admits under a '
          'small configured limit) with any task completion order, the node is stopped exactly there and with each pending write torn at every byte prefix of '
          'the real ciphertext; the real NodeRecordStore is re-opened on the directory with the same identity (twice) and judged: only validated values, '
          'completed writes served, completed removals stay, listed implies readable, recovery idempotent. In addition one record of chunk-like size (140,000 '
          'bytes; thorough 70,000 / 140,000 / 300,000), written by the real write task, is torn at every byte prefix of its file and the real store opened on '
          'it. And restarts through the real NetworkBuilder::build_node (which keeps or wipes the store according to the network id recorded in the root '
          'directory): every sequence of 3/4 runs over network ids of one, two and three digits on one root directory, each run reading what earlier runs with '
          "the same id stored and storing one more record through the real driver. Built against ant-node's default features, so the shipped encrypt-records "
          'setting is what is checked. Restarts on a record directory holding a planted file (35 names x 8 contents, see C17): no crash, nothing served that '
          'was never stored, a record stored next to it survives. Completed removals at clean-up scale across a restart: stores of 1638 / 1650 settled '
          "records, one key beyond the coming range brought - by a legitimate completion order of a second version's write, a removal and the late "
          'acknowledgement - into the listed-without-a-file state, range, clean-up, everything settled, restart: nothing the clean-up removed may be served or '
          'listed again, everything within the range must be served.',
  'note': 'Trusted: process-stop crash model (completed syscalls persist; fs::write = truncate then write); the torn bytes are prefixes of what the real write '
          'task produced.'},
 {'id': 'C10',
  'engine': 'mc-core::bfs',
  'level': 'model_checking',
  'technique': 'explicit-state BFS (replay mode) over put/remove/range/payment/cleanup/restart histories x all task orders on the real store, plus exact '
               'clean-up at the 1638-record threshold',
  'text': 'Capacity 2 and 3, 4 keys ranked by an independent XOR metric, <=3/4 API operations from empty and pre-filled stores with unbounded scheduler steps '
          '(frontier exhausted): capacity bound, admission/eviction rule (whenever the acknowledged records fill the store), evictions only for records new to '
          "the store, no-op re-puts changing nothing, refusal leaving the held set unchanged, farthest tracking (through the store's own get_farthest), exact "
          'removals, an unvalidated inbound record (RecordStore::put) changing nothing, quoting metrics (close records, capacity, payments incl. after restart '
          'for every flush order) are judged after every transition. Clean-up is checked exactly on stores of 1637/1638/1639 records x 5 ranges, including '
          'that what it removed is no longer readable. Node layer: a real Node over a real SwarmDriver holding 1640 records at capacity, a range leaving 40 '
          'outside, 3 payments — the figures, signature and address of the quote it answers GetStoreQuote with (before and after an admitted put and the '
          "clean-up), a refused and an admitted PutLocalRecord and TriggerIrrelevantRecordCleanup, judged on the node's listed records. The signed quote is "
          'also judged on small nodes (capacity 3..=5) that a burst of 2..=4 unacknowledged PutLocalRecord left above capacity, with no range and with 1..=2 '
          'held records outside it.',
  'note': 'Trusted: ranges strictly between key distances (equality not probed); capacity bound not judged after a restart taken mid-eviction (crash states '
          'belong to C02).'},
 {'id': 'C08',
  'engine': 'mc-core::bfs',
  'level': 'model_checking',
  'technique': 'explicit-state BFS (clone mode) on the real ReplicationFetcher with exact-age state key and bounded-liveness runs from every state',
  'text': 'The real fetcher object is the state; actions are advertisements (single-key and 7 multi-key lists from 3 holders), arrivals, early completions, '
          'range/fullness updates, aging by the two timeouts and scheduling ticks over 6 ranked keys (one in two versions) to depth 4/5, and a 24-key universe '
          'to depth 4/6 for the parallel limit. After every transition the issued (holder,key) pairs and the queue views are judged (not held, in range for '
          'list keys, not beyond farthest when full, no duplicate version in flight, limit, closest first, removal on arrival/completion/timeout, holder '
          'reported and dropped); from every reachable state a 4-round fair continuation must fetch every eligible advertised key. The same rules are judged '
          'one level up on a fresh real SwarmDriver per case (every held subset of <=2/3 of 6 ranked keys x range unset / after rank 1, 3, 5 x every non-empty '
          'list from a routing-table neighbour, from the KeysToFetchForReplication events). Driver layer, full node: capacity 3, three held sets, a '
          "neighbour's list of 23 new keys (more than the parallel limit, so some stay queued), then fetched records handed to the real PutLocalRecord handler "
          '(the first arrival far beyond / just beyond the farthest held / nearest / in between): after the first refused put no KeysToFetchForReplication '
          'event may name a key farther than the farthest record held. Back-pressure: with an event channel of capacity 1..=3 holding 0..=capacity free slots '
          'when a fetch times out, noticed by a tick, an advertisement, an arrival or an early completion of another record, under 3 orders of consumer reads '
          "and send-task polls, the timed-out holder's report must arrive once the consumer has read everything and every send task has run.",
  'note': 'Trusted: hook wrapper VerifFetcher (Clone, queue views, age()/unage(): model time moves only through Age steps, wall-clock time spent in the '
          'frontier is added back to the deadlines); limits 20 / 20 s / 900 s pinned in the harness; queued entries are judged against the range in force when '
          'they were queued.'},
 {'id': 'C03',
  'engine': 'mc-core::enumerate',
  'level': 'model_checking',
  'technique': 'exhaustive product of payment-condition vectors x kind x prior content, each executed on a real Node + SwarmDriver to quiescence with a '
               'JSON-RPC contract stub',
  'text': 'Every combination of the six payment conditions (4x2x3x3x8x3: signatures (authentic, forged, signed by another key, a payee listed twice with a '
          'forged first quote), self among payees, payees close, age, chain answer incl. JSON-RPC error, three transport-level failures and per-quote verdicts '
          "(another payee's quote unpaid while this node's is paid; a five-quote proof of which the contract reports three quotes, none this node's, unpaid), "
          "own quote's address (this / another / all-zero content); age defect on either quote) x 4 record kinds x 4 prior contents (nothing, the same "
          'version, another version, a record of another kind under the same key) is a separate execution of the real validate_and_store_record on a freshly '
          'built real SwarmDriver whose channels the harness pumps (FIFO); the contract is a loopback JSON-RPC endpoint reached through EvmNetwork::Custom by '
          'the unmodified verify_data_payment. Stored iff all conditions hold, Ok iff stored, nothing changes otherwise; unpaid uploads only update held '
          'mutable records. Histories of two uploads for one address per kind: a valid paid upload is stored, the record is pruned, then every single failing '
          'condition with the same own quote must store nothing (and a second valid upload must store). A fifth prior for the unpaid uploads: the only earlier '
          'version was accepted but its disk write failed (a directory squatting on the file name) and the store cleaned up - the node does not hold the '
          'address, so an unpaid upload must be refused and leave nothing readable and no file. Neighbourhood histories: a node that knows six peers (all '
          'among its K closest) takes a first valid upload, learns 38 more peers so that one early payee is no longer among the K closest, and must refuse a '
          'second upload of another kind naming that payee (every ordered pair of kinds, first upload with or without that payee) while still accepting one '
          'whose payees are close now.',
  'note': "Trusted: the contract stub's answers; quote ages >= 30 s from the thresholds; sequential FIFO schedule (overlap is C07)."},
 {'id': 'C04',
  'engine': 'mc-core::enumerate',
  'level': 'model_checking',
  'technique': 'exhaustive product kind x acceptance path x key choice x prior content on a real Node + SwarmDriver; stored keys re-derived from stored bytes',
  'text': 'For 4 kinds x {paid put, unpaid update, replication, kad inbound put} x {derived key, key of another object of the kind, key of another kind, '
          'random key, a prefix / an extension of the derived key, the empty key} x {empty, derived key held, the presented foreign key held by its legitimate '
          'record, a store full of two unrelated and farther chunks}, the record is presented to the real node (payment valid for the presented key); a '
          'foreign key must change nothing and be refused, the honest pairing must be stored, nothing is readable between RecordStore::put and validation, '
          "oversized/unparseable inbound records produce no event and no record, and every listed record's key is recomputed from its bytes. Oversized inbound "
          'records (at the limit, one above, twice the limit) under the header of each of the 8 record kinds must be refused without a validation event. Chunk '
          'records whose body is well-formed MessagePack of 7 other shapes than the encoder writes (an explicit address next to the content as sequence or map '
          'in either order, nesting, the content as integers) are presented under the address they claim and under the hash of their content, on the paid, '
          "replication and kad-inbound path, with the claimed address held or not; a stored chunk's key is re-derived by reading its MessagePack byte string "
          'by hand, not through the decoder under test.',
  'note': 'Trusted: independent key derivation in chk-node/src/c04.rs; FIFO schedule.'},
 {'id': 'C07',
  'engine': 'mc-core::sched',
  'level': 'model_checking',
  'technique': 'BFS over delivery histories on a real Node (sequential) + stateless deviation-bounded DFS over all interleavings of two live validation '
               'futures, driver command handling and spawned tasks (concurrent)',
  'text': 'Sequential: every delivery history (to depth 3/4, frontier exhausted) of scratchpads (counters x signer x owner, and for counters 1 and 2 a second '
          'owner-signed version with other content: the one stored first stays), transaction vectors (<=2 entries of a pool with badly signed and foreign '
          'ones, in both orders) and register op-subsets via replication / unpaid update / paid upload against the fold-reference (highest valid counter / '
          'union), with authenticity and no-regress checked at every step; a valid record of the other kind that shares the key (scratchpad vs transaction set '
          'of one owner) is offered against held content and must change nothing. Concurrent: every ordered pair of authentic deliveries to one key, with and '
          'without prior content, both real futures live; every schedule with <=1/2 deviations from FIFO is executed on a fresh real SwarmDriver and judged '
          'after quiescence.',
  'note': "Trusted: the controlled executor owns every spawn (verif-hooks shim) and the driver's channels; deviation bound 1 (quick) / 2 (thorough)."},
 {'id': 'C05',
  'engine': 'mc-core::bfs',
  'level': 'model_checking',
  'technique': 'explicit-state BFS (replay mode) over caller/reply/termination histories on the real SwarmDriver with synthetic kad events, peer-symmetry '
               'reduction; exhaustive subsets x arrival orders through the real get_record_from_network; layer 2b enumerates the iteration order of the '
               "driver's HashMap of versions via a read-only hook",
  'text': 'Callers register through the real handle_network_cmd(GetNetworkRecord), peer replies and the four terminating events are kad events handled by the '
          'real handle_swarm_events; all histories to depth 6/8 with up to 2/3 concurrent callers over 9 cfgs (quorums x expected value none / A / B), '
          "duplicated and conflicting replies, callers leaving; each caller's outcome is judged against its OWN cfg and the replies delivered to its query "
          '(quorum of distinct peers, expected value, never a single version when differing versions had been returned, split carries all versions, every '
          'waiting caller answered, stale events change nothing). Layer 2 drives the real Network::get_record_from_network for every 2-3-subset and arrival '
          'order of version pools for scratchpads, registers and transactions through the real driver; layer 3 hands the same pools to get_record_from_network '
          'as a split result whose HashMap iterates in every order (the harness builds maps until one has the wanted order). Layer 4: the retry loop of '
          "get_record_from_network on the hook's virtual clock — every sequence of per-attempt answers over 8 (two agreed values, NotEnoughCopies / "
          'RecordDoesNotMatch carrying a record, RecordNotFound, QueryTimeout, a mergeable and an unmergeable split) x strategy {None, N(2), Quick}, and two '
          'overlapping callers x every pair of answer sequences x 8 answer orders: a value only from an attempt answered with it, nothing asked after a '
          'success, at most `attempts` queries, a failure names an error that was answered. Layer 1 also runs with register versions (two forks with the same '
          'number of operations; a register and its ancestor) read with an expected value (is_register). Layer 2b: one version reaches the quorum while other '
          "versions have already been returned (the driver's quorum-time branch): per mergeable kind every majority version of the pool (the transaction pool "
          'extended by an undecodable body and a scratchpad record under the same key) x every 1-2 other versions x arrival sequences (quick: the others first '
          "in every order; thorough: every interleaving) x EVERY iteration order of the driver's own version map - read through a hook just before the "
          'completing answer, each case repeated on fresh drivers until every order has been executed.',
  'note': 'Trusted: synthetic kad events (QueryStats::empty); peers are symmetric (expected_holders empty), so one representative per answer signature is '
          "exact; the split map's HashMap order is whatever the driver-built map has in layer 2 (4 repetitions, not counted as coverage) and is enumerated "
          'exhaustively in layer 3.'},
 {'id': 'C09',
  'engine': 'mc-core::sched',
  'level': 'model_checking',
  'technique': 'stateless deviation-bounded DFS over message delivery orders between 2-3 real nodes (SwarmDriver + Node) wired in-process',
  'text': "Each node is a real SwarmDriver + Node; the harness is the transport: a SendRequest popped from a node's command channel is an in-flight message, "
          "delivering a Replicate calls the receiver's real handler, a GetReplicatedRecord runs the receiver's real handle_query and the response goes back to "
          "the requester's oneshot. Seeds (chunk on A only; divergent registers, transaction sets, scratchpads) enter through the real replication-store path; "
          '3 rounds of interval replication on every node 120 s apart, plus scenarios in which A accepts a record after the first round with rounds 31 s / 46 '
          's apart (inside / outside the 45 s per-target throttle); plus a full node A (capacity 2, its fetcher told so by a refused third record) whose '
          'farthest record is a register / transaction set that B holds in another version, and scenarios with a responsible range set on A (covering the '
          "record but narrower than the record's distance from B; the narrowest possible); every delivery order with <=1/2 deviations from FIFO; convergence "
          'and advertisement of every held record judged after quiescence; advertisements from a stranger / from self, and - on a node whose routing table '
          'holds 45 peers - from every peer outside the K closest (one-key and two-key lists), must cause no fetch. Scenarios with one / two transient issues '
          'recorded at A against B beforehand (B is still not a bad node and stays a replication target). On the 45-peer node every one-key list (a record '
          'nobody advertised before) from a peer among the K closest must be acted on, whichever rank among the K the sender has. Three scenarios in which the '
          "receiving neighbour's disk refuses the record's file during the first round only (chunk, scratchpad, register): later rounds must leave it holding "
          'the record.',
  'note': 'Trusted: the transport delivers the holder claimed in the message (the real handler never sees the transport-level sender); no responsible range '
          'set (all keys in range) except in the scenarios that set one on the sender.'},
 {'id': 'C11',
  'engine': 'mc-core::enumerate',
  'level': 'exploration',
  'technique': 'exhaustive enumeration over a 64-address universe against an independent SHA-256/XOR reference',
  'text': 'All 4096 ordered pairs of a universe containing every address kind in typed and raw form (value, symmetry, zero iff equal bytes, typed==raw, '
          'ordering agreement), all 1024 subsets of a 10-peer list x 5 targets (incl. the address of a listed peer, typed and raw: distance zero) x 6 '
          'requested counts through both sorters, every range bound d-1/d/d+1 of every distance through get_peers_in_range, calculate_get_closest_peers (both '
          "modes) and the real SwarmDriver's get_replicate_candidates (routing tables of 10 and of 40+ known peers, so that ranges holding more than K_VALUE "
          'peers occur), every count 0..=12, and the number of records a real record store counts within every range bound d-1/d+1 after writes, updates of '
          'held records and a removal, and the record a real store names as its farthest after every step of every sequence of <=4 writes/removals over 4 '
          "keys; and the replication fetcher's full-node bound at each of 6 ranked keys (single-key and six-key lists, keys new or held in another version, "
          'entries in flight when the bound arrives): taken iff not farther than the bound by the integer. The selection a caller gets from '
          "Network::get_all_close_peers_in_range_or_close_group (harness answers GetClosestPeersToAddressFromNetwork): 3..=10 found peers, the caller's own id "
          'absent or at every rank, as client and as node, list handed over in both orders — the nearest <= 7 eligible in ascending order or NotEnoughPeers '
          "below 5. A real SwarmDriver's own K-closest-local-peers list (self, then the 19 nearest in ascending distance) and its replication candidates are "
          'judged on routing tables of 10 and of >= 30 peers met in three orders (as listed, reversed, farthest first).',
  'note': 'Trusted: sha2 crate + big-endian XOR reference in rigs::reference; 256-bit space only through this universe.'},
 {'id': 'C18',
  'engine': 'mc-core::bfs',
  'level': 'model_checking',
  'technique': 'explicit-state BFS (replay mode) on the real BootstrapCacheStore + exhaustive preemption-bounded interleaving of concurrent flushers at '
               'file-system-call granularity (libc interposition) + corrupt-file sweep',
  'text': '(H) every history to depth 4/5 of add/status/remove/cleanup/flush against the current or one of 3 prepared cache files under 8 configurations, '
          'judged for bounds, well-formed addresses (exactly host / transport / one peer id, filed under the peer the address names), cleanliness after '
          'clean-up (in memory and in the raw file a flush with clean-up writes), nothing-invented and nothing-lost on merge, saved file loads. (F1) the '
          'vcheck-fs binary defines open/openat/write/fsync/renameat/... itself, so each file-system call of 2-3 real sync_and_flush_to_disk threads (+ a '
          'reader) is a scheduling point; every schedule with <=4/8 preemptions is executed and after every single call the real load_cache_data must load the '
          'file or find none. (F2) every truncation and boundary-byte substitution of a valid file and 7 foreign shapes: never a panic, always overwritable. '
          '(T) cache files whose entries all carry the same last_seen under 12 limit settings x 4 operations: the limits hold whichever of the tied peers is '
          'dropped. (C) 12 cache files written under the default limits (one peer with 1..6 addresses) x per-peer limit 1..5 x 5 operations: the limit holds '
          'on the loaded cache and in the raw file however large the excess. The corrupt-file sweep also replaces every number token of a valid file by 14 '
          'boundary values (0, 2^32 +- 1, i64::MAX - one day +- 1, i64::MAX +- 1, u64::MAX, 2^64, -1, 1e30, 10^9 +- 1) and repeats these under expiry settings '
          '0 and Duration::MAX. The state search is repeated (one level shallower, widest and narrowest limits) on stores built the way nodes and clients '
          'build them, BootstrapCacheStore::new_from_peers_args with a --bootstrap-cache-dir (the configured path then holds a decoy cache the store must '
          'neither read nor write) and without.',
  'note': 'Trusted: link-time interposition covers the calls listed in evidence.fs_interleavings.calls_intercepted; completed calls are atomic steps (no torn '
          "single write); HashMap tie-breaks between equally old peers are not judged; entries are created >= 400 us apart so that 'oldest' is well defined."},
 {'id': 'C19',
  'engine': 'mc-core::bfs',
  'level': 'model_checking',
  'technique': 'explicit-state BFS (replay mode) over lifecycle operations x fault placements on the real add_node / ServiceManager / NodeRegistry against a '
               'simulated OS',
  'text': 'Every history to depth 5/6 of add (count, node-port options incl. the last port of a recorded range, and the same port number requested as RPC or '
          "metrics port), start, stop, remove, upgrade, and the environment steps 'process dies' and 'definition deleted by the user' on up to 2 services, "
          'with at most 1/2 injected I/O failures at call index 0..7 of an operation (pairs in thorough), is executed on the real code against SimOs (public '
          'ServiceControl/RpcActions traits). After every operation the registry is compared with the simulated OS (running => live process with that PID, Ok '
          'stop/remove => no process and no PID, removed stays removed, failed operations never record running, distinct names/dirs, port conflicts refused '
          'whatever the purpose of the port) and the saved registry must load back equal; after a failed add the registry on disk (as add_node itself left it) '
          'must record every service installed before the failure. The whole search is run a second time through the command layer: every start / stop / '
          'remove / upgrade is preceded by the partial registry refresh the antctl commands perform (refresh_node_registry(full_refresh = false) against the '
          "simulated OS), and a third time with the injected failure allowed to hit the refresh's own PID look-ups; violations found there carry the trigger "
          'prefix command-layer/ and are never absorbed by a known finding recorded for the directly driven API (quick: depth 4).',
  'note': "Trusted: SimOs semantics (definitions, loaded units, processes keyed by binary path); injected failures are I/O errors only - 'not found' answers "
          'come from the simulated state, never as lies.'},
 {'id': 'C20',
  'engine': 'mc-core::enumerate',
  'level': 'exploration',
  'technique': 'deviation-bounded exhaustive enumeration of option vectors; install vs upgrade definitions captured from the real code and parsed by the '
               'antnode binary built from the same tree',
  'text': 'Every configuration with at most 3/4 of the 22 installable options (incl. the service account) away from their defaults (each alternative value) x '
          '3 EVM networks, plus all-on vectors: the real add_node and the real ServiceManager::upgrade (UpgradeOptions as cmd/node.rs builds them; the '
          'auto_restart initialiser is read from that source) run against a capturing ServiceControl; program, user, label, autostart and environment of the '
          "two definitions must agree, and both argument lists are executed, with the definition's environment (one alternative carries variables the node "
          'itself reads: ANT_PEERS, ANT_LOG), through the antnode binary (option-dump hook): exit 0, identical parsed options, every requested option visible '
          'with its value (each URL / peer address as a list element of its own; the data and log directories, which carry mixed-case names, exactly as the '
          'manager records them). Besides the parsed options, the configuration the node is about to run with (second hook, late in main: network id as '
          'carried by every protocol string, EVM network, rewards address, socket address, root and log directories, flags) must be the intended one and '
          'identical for the installed and the upgraded definition. Histories: one add of 2..=3 (thorough 4) services under every single non-default option, '
          'no install or the k-th failing, the registry re-read from disk as the next invocation does, every recorded service upgraded with the environment '
          'the registry records — each regenerated definition (program, user, autostart, environment, working directory, arguments as the node parses them) '
          'must equal the one that service was installed with.',
  'note': "Trusted: bounded by the number of non-default options (full product out of budget); configurations that antctl's own PeersArgs parser rejects are "
          'skipped; the mirror of the UpgradeOptions literal is guarded by reading the source.'},
 {'id': 'C14',
  'engine': 'mc-core::sched',
  'level': 'model_checking',
  'technique': 'exhaustive length sweep (two chunk-size builds) x every completion order of the concurrent chunk fetches, through a real Client whose network '
               'the harness answers; upload layer: every put-acknowledgement order within the bound x single put faults through the real data_put',
  'text': 'A real autonomi::Client runs data_get / data_get_public over a Network handle whose command channel the harness owns; each GetNetworkRecord is a '
          'pending request answered from an in-memory record map, and which pending request completes next is a search choice (every order for <=6 chunks, <=2 '
          'deviations from FIFO up to 24 chunks, <=1 up to 64, FIFO and newest-first beyond). Inputs: the shipped 1 MiB build for lengths 0..8 and 3 MiB +-2; '
          "a build with self_encryption's compile-time knob MAX_CHUNK_SIZE=1024 for every length 0..4098, k KiB +-1 and every length where the packed data map "
          'changes shape (a further level at ~10, ~90, ~900 chunks), 3 contents each. Round trip, rejection below 3 bytes, determinism, content addressing and '
          'the size rule are judged on every input. For inputs of <= 6 chunks (quick: lengths <= 64 and within one byte of a multiple of 256, below 100 kB; '
          'thorough: all) each chunk in turn is unavailable (RecordNotFound) under every completion order of the other fetches: the result must be an error or '
          'the original bytes, never other bytes. The same fault also as a transient one (the chunk is refused only the first time it is asked for). Upload '
          'layer: Client::data_put / data_put_public with a receipt covering every chunk, the harness being the network (it takes each PutRecordTo - which '
          'waiting put next is a search choice, <= 1 deviation for <= 4 chunks -, answers the closest-peer and chunk-proof queries of the store verification '
          'from what it really holds, moves a virtual clock when the client sleeps; every execution inside a one-thread rayon pool so that the order of puts '
          'is reproducible); environment deviations: one put answered with an error, one put acknowledged but lost; once the upload reports success the '
          "network must hold exactly the reference encryption's chunks under their content hashes, the returned data map / address must be the reference one, "
          'and fetching through it must return the input. Upload faults include one chunk whose every put is refused the first 6 times (as often as one '
          'put_record call tries) or for good (thorough: 2, 6, 7 times or for good, with one deviation in the put order).',
  'note': "Trusted: contents are 3 patterns; 'maximum chunk size' is judged as the crate and pack_data_map define it (source bytes per chunk; serialised size "
          "for the data-map chunk), with the stored form allowed the cipher's padding (<= 64 bytes, measured 16); the small-chunk build differs from the "
          'shipped one only in that constant.'},
 {'id': 'C15',
  'engine': 'mc-core::enumerate',
  'level': 'model_checking',
  'technique': 'exhaustive enumeration of adversarial reply sets (x result-map iteration orders x fetch completion orders) below a real Client',
  'text': "The harness answers the real Client's GetNetworkRecord requests with everything get_record_from_network could hand it: for chunk_get 16 replies x "
          '20 (requested, other) content pairs; for data_get_public / data_get every fetched chunk of 4 files replaced in turn by 3-4 substitutes in every '
          'completion order; for fetch_and_decrypt_vault 14 versions (authentic counters 1,2,3 and a fork, unsigned / replayed-signature / forged / foreign at '
          'counter 9, a forgery tying with counter 2, forged / unsigned / authentic pads under a chunk-kind header, garbage, a chunk record) as an agreed '
          'record, inside not-enough-copies with every shortfall (1-2 of 3, 1-4 of 5 holders agreeing), and as a split of every subset of 2..3/4 versions in '
          'every iteration order of the result map (the harness builds HashMaps until one iterates in the wanted order). The vault read also runs over a real '
          'client-side SwarmDriver with every sequence of 3..5 holder answers as kad events. Returned data must hash to the requested address / be the highest '
          'authentic version among those received; authentic data masked by unauthentic scratchpads is a violation; Scratchpad::is_valid() is judged against '
          'an independent BLS verification. Files in which chunks repeat (zeros, uniform bytes, zeros around other content) are read as well, and whatever an '
          'honest read returns must encrypt back to the requested address.',
  'note': "Trusted: the reply alphabet; how holders' answers become agreed/split results is C05's subject; an undecodable or wrong-kind record in a split may "
          'fail the read (the statement only says unsigned and foreign versions are discarded).'}]

NOT_BUILT = [(f"C{i:02d}", _pending) for i in range(1, 21) if f"C{i:02d}" not in {c["id"] for c in CHECKS}]
