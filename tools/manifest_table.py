HOOK_COMMITS = []
ENGINES = [
    {"name": "mc-core::enumerate", "path": "harness/mc-core/src/enumerate.rs", "serves_properties": ["C16", "C17"],
     "kind_free_text": "exhaustive bounded input enumeration (odometers, products, subsets, byte mutations) against independent references"},
    {"name": "mc-core::bfs", "path": "harness/mc-core/src/bfs.rs", "serves_properties": [],
     "kind_free_text": "explicit-state BFS over operation histories; the transition function is the real method (clone mode / replay mode)"},
    {"name": "mc-core::sched", "path": "harness/mc-core/src/sched.rs", "serves_properties": [],
     "kind_free_text": "stateless iteratively deviation-bounded DFS over choice sequences (schedules, fault placements)"},
]
CHECKS = [
    {"id": "C16", "engine": "mc-core::enumerate", "level": "exploration",
     "technique": "exhaustive bounded input enumeration vs independent decimal reference",
     "text": "Every string up to length 5/6 over a 12-character boundary alphabet, a structured family of long decimal strings up to and past the 256-bit range, ~1000 boundary amounts and all ordered pairs of a boundary set are run through the real AttoTokens parser/printer/arithmetic and compared with an independent digit-vector reference; complete within those bounds, silent outside them.",
     "note": "Trusted: the reference in chk-pure/src/refnum.rs; the 256-bit space is covered only through the boundary sets."},
    {"id": "C17", "engine": "mc-core::enumerate", "level": "exploration",
     "technique": "exhaustive bounded input enumeration under catch_unwind with overflow checks on",
     "text": "Each listed parser is called on a completely enumerated boundary family (all lengths, all truncations and single-token/byte mutations of valid inputs, all short strings over marker alphabets, all 65536 ports); a panic or arithmetic overflow in the real code is a violation, and parse(format(x))==x is checked where a formatter exists. Complete within the families, silent outside them.",
     "note": "Trusted: catch_unwind + overflow-checks=on surface every crash; inputs outside the enumerated families (long random text, deep JSON nesting) are not covered."},
]
_pending = "check not built yet in this session (planned in DESIGN.md §4); not claimed until it runs"
NOT_BUILT = [(f"C{i:02d}", _pending) for i in range(1, 21) if f"C{i:02d}" not in {c["id"] for c in CHECKS}]
