#!/bin/bash
# Runs the repository's own test-suite with the verif-hooks feature OFF and compares with the stable baseline.
export CARGO_NET_OFFLINE=true USER=${USER:-root}
cd /repo || exit 2
LOG=/dev/shm/baseline_run.log
cargo nextest run --workspace --no-fail-fast --offline --test-threads 8 > $LOG 2>&1
python3 - <<'PY'
import json,re
stable=set(json.load(open('/root/.vp/BASELINE.json'))['stable_pass'])
log=open('/dev/shm/baseline_run.log').read()
res={}
for m in re.finditer(r'^\s+(PASS|FAIL|SIGSEGV|TIMEOUT|SIGABRT)\s+\[[^\]]*\]\s+(?:\(\s*\d+/\d+\)\s+)?(\S+)\s+(\S+)', log, re.M):
    res[f"{m.group(2)}::{m.group(3)}"]=m.group(1)
ran=[k for k in stable if k in res]
bad=[k for k in ran if res[k]!='PASS']
missing=[k for k in stable if k not in res]
print(f"stable tests: {len(stable)}  run: {len(ran)}  passing: {len(ran)-len(bad)}  failing: {bad}  not seen: {missing[:5]}{'...' if len(missing)>5 else ''}")
PY
