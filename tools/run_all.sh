#!/bin/bash
# usage: tools/run_all.sh [quick|thorough] — runs every claimed check in turn, prints one line each
TIER="${1:-quick}"
HERE="$(cd "$(dirname "$0")/.." && pwd)"
cd "$HERE"
rc_all=0
for i in $(seq -w 1 20); do
  id="C$i"
  s=$(date +%s)
  out=$(bin/check "$id" "$TIER" 2>&1); rc=$?
  e=$(( $(date +%s) - s ))
  kf=$(echo "$out" | grep -c "^KNOWN-FINDING")
  echo "$id rc=$rc ${e}s known-findings=$kf $(echo "$out" | grep -E "^\[$id\] tier=" | tail -1 | cut -c1-160)"
  [ $rc != 0 ] && { rc_all=1; echo "$out" | grep -E "VIOLATION|MACHINERY" | head -5; }
done
exit $rc_all
