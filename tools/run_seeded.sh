#!/bin/bash
# usage: tools/run_seeded.sh [name-prefix ...]
# For every seeded change under /verif/seeded/: apply it to /repo's working tree, run the quick check
# of its property (and of the other properties listed in its meta.json "also"), restore the tree.
# Prints one line per (change, check): DETECTED (exit 1 with a VIOLATION line) / MISSED (exit 0) /
# MACHINERY (anything else). Never commits anything in /repo.
set -u
HERE="$(cd "$(dirname "$0")/.." && pwd)"
# Work from a snapshot of /verif (sources as they are now, own build directory), so that the harness can be edited
# while this runs and the evidence / replay files of runs against changed trees never land in /verif itself.
# Only seeded/RESULTS.txt is written back.
if [ -z "${VERIF_SEEDED_SNAPSHOT:-}" ]; then
  SNAP=/dev/shm/verif-snap
  mkdir -p "$SNAP"
  rsync -a --delete --exclude '/harness/target/' --exclude '/harness/target-se/' --exclude '/.git/' "$HERE/" "$SNAP/" || exit 2
  VERIF_SEEDED_SNAPSHOT=1 VERIF_SEEDED_OUT="$HERE/seeded/RESULTS.txt" exec "$SNAP/tools/run_seeded.sh" "$@"
fi
cd "$HERE" || exit 2
if [ -n "$(git -C /repo status --porcelain)" ]; then echo "/repo working tree is not clean"; exit 2; fi
OUT="${VERIF_SEEDED_OUT:-$HERE/seeded/RESULTS.txt}"; : > "$OUT.tmp"
for d in seeded/*/; do
  n=$(basename "$d")
  if [ $# -gt 0 ]; then ok=0; for p in "$@"; do case "$n" in $p*) ok=1;; esac; done; [ $ok = 1 ] || continue; fi
  [ -f "$d/patch.diff" ] || continue
  id=${n%%-*}
  also=$(python3 -c "import json,sys; print(' '.join(json.load(open(sys.argv[1])).get('also',[])))" "$d/meta.json" 2>/dev/null)
  if ! git -C /repo apply --check "$HERE/$d/patch.diff" 2>/dev/null; then
    if git -C /repo apply --3way --check "$HERE/$d/patch.diff" 2>/dev/null; then :; else echo "$n: DOES-NOT-APPLY (superseded by a later fix in /repo)" | tee -a "$OUT.tmp"; continue; fi
  fi
  git -C /repo apply "$HERE/$d/patch.diff" 2>/dev/null || git -C /repo apply --3way "$HERE/$d/patch.diff" >/dev/null 2>&1
  for c in $id $also; do
    log=$(bin/check "$c" quick 2>&1); rc=$?
    if [ $rc = 1 ] && echo "$log" | grep -q "^VIOLATION property=$c"; then
      first=$(echo "$log" | grep -A1 "^VIOLATION" | grep "clause=" | head -1 | sed 's/^ *//' | cut -c1-160)
      echo "$n: $c DETECTED  $first" | tee -a "$OUT.tmp"
    elif [ $rc = 0 ]; then echo "$n: $c MISSED" | tee -a "$OUT.tmp"
    else echo "$n: $c MACHINERY rc=$rc $(echo "$log" | grep MACHINERY | head -1 | cut -c1-200)" | tee -a "$OUT.tmp"; fi
  done
  git -C /repo checkout -- . ; git -C /repo reset -q
done
if [ $# -gt 0 ] && [ -f "$OUT" ]; then
  # a partial run replaces the lines of the changes it ran and keeps the others
  names=$(cut -d: -f1 "$OUT.tmp" | sort -u)
  { grep -v -F -f <(printf '%s:\n' $names) "$OUT"; cat "$OUT.tmp"; } | sort > "$OUT.merged"
  mv "$OUT.merged" "$OUT"; rm -f "$OUT.tmp"
else
  mv "$OUT.tmp" "$OUT"
fi
# leave the harness built against the restored tree
exit 0
