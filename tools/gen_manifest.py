#!/usr/bin/env python3
"""Regenerates /verif/MANIFEST.json from the table below and validates it against the schema."""
import json, os, subprocess, sys
ROOT = os.path.dirname(os.path.dirname(os.path.abspath(__file__)))
sys.path.insert(0, os.path.join(ROOT, "tools"))
from manifest_table import CHECKS, NOT_BUILT, HOOK_COMMITS, ENGINES

BASELINE_OFF = ("cd /repo && cargo nextest run --workspace --no-fail-fast --offline --test-threads 8 "
                "|| cargo test --workspace --no-fail-fast --offline")
m = {
    "version": 1,
    "setup_cmd": "cd /verif && bin/setup",
    "hooks": {
        "guard": "cargo feature `verif-hooks` (ant-networking, ant-node, autonomi); off by default",
        "enable": "the harness crates under /verif/harness depend on /repo's crates by path with features=[\"verif-hooks\"]; bin/check rebuilds them from /repo's working tree on every invocation",
        "baseline_off_cmd": BASELINE_OFF,
        "source_commits": HOOK_COMMITS,
        "add_only": True,
    },
    "engines": ENGINES,
    "checks": [],
    "notes": "Exit codes of every command: 0 held / 1 VIOLATION line printed / 2 machinery failure (no verdict). "
             "Known findings are listed in /verif/known_findings.json and printed as KNOWN-FINDING lines. "
             "See DESIGN.md for the per-property alphabet, bound and oracle.",
    "not_applicable": [],
}
for c in CHECKS:
    pid = c["id"]
    m["checks"].append({
        "property_id": pid,
        "quick_cmd": f"/verif/bin/check {pid} quick",
        "thorough_cmd": f"/verif/bin/check {pid} thorough",
        "evidence_file": f"/verif/evidence/{pid}.json",
        "replay_cmd_template": "/verif/bin/replay {path}",
        "engine": c["engine"],
        "level_claimed": {"category": c["level"], "text": c["text"], "design_ref": c.get("design_ref", f"DESIGN.md §4 {pid}")},
        "level_note": c["note"],
        "technique": c["technique"],
    })
for pid, reason in NOT_BUILT:
    m["not_applicable"].append({"property_id": pid, "reason": reason})
out = os.path.join(ROOT, "MANIFEST.json")
json.dump(m, open(out, "w"), indent=1)
import jsonschema
jsonschema.validate(m, json.load(open("/root/.vp/MANIFEST.schema.json")))
ids = [c["property_id"] for c in m["checks"]] + [n["property_id"] for n in m["not_applicable"]]
assert sorted(ids) == [f"C{i:02d}" for i in range(1, 21)], ids
print("MANIFEST.json ok:", len(m["checks"]), "checks,", len(m["not_applicable"]), "not claimed")
