#!/bin/bash
# usage: tools/try_seeded.sh <seeded-dir-name> [check ids...]   (default: the id in the name)
# Applies one seeded change to /repo's working tree, runs the quick checks in place (this /verif, its build
# directory), restores the tree and /verif's evidence + replays. For trying a change while editing a check;
# tools/run_seeded.sh is the one that writes seeded/RESULTS.txt.
set -u
HERE="$(cd "$(dirname "$0")/.." && pwd)"; cd "$HERE"
n="$1"; shift; ids="${*:-${n%%-*}}"
p="$HERE/seeded/$n/patch.diff"; [ -f "$p" ] || p="$n"
[ -z "$(git -C /repo status --porcelain)" ] || { echo "/repo not clean"; exit 2; }
# PLAIN: no change applied (a run on the unchanged tree that has to take its turn with the runs on changed trees)
if [ "$n" != "PLAIN" ]; then
git -C /repo apply "$p" || git -C /repo apply --3way "$p" || { echo "does not apply"; exit 2; }
fi
for c in $ids; do
  log=$(bin/check "$c" quick 2>&1); rc=$?
  echo "== $n: $c rc=$rc"; echo "$log" | grep -A1 "^VIOLATION\|MACHINERY" | grep -v "^--" | cut -c1-300 | head -8
  [ "$n" = "PLAIN" ] && echo "$log" | grep -E "^\[$c\] tier=|KNOWN-FINDING" | cut -c1-200 | tail -4
done
git -C /repo checkout -- . ; git -C /repo reset -q; git -C /repo clean -fdq
[ "$n" = "PLAIN" ] || { git checkout -q -- evidence replays 2>/dev/null; git clean -fdq replays; }
